(* C02 — #if expressions are evaluated with C integer-constant-expression semantics.
   Only statements, each closed by [exact], with its assumptions printed.
   M = Model/C02.v (ExpressionEvaluator over the tables generated from the source),
   S = Spec/C02.v (ISO C). *)
From Coq Require Import ZArith Bool String List.
From CBI Require Import Lib.Data Lib.Res Gen.C02_tables Model.C02 Model.C02lex Spec.C02 Proofs.C02 Proofs.C02s Proofs.C02l Proofs.C02g Proofs.C02x Proofs.C02f Proofs.C02y.
From CBI Require Model.C01 Spec.C01 Proofs.C01.
Import ListNotations.
Local Open Scope string_scope.

(* The tables in preprocessor.py, as they are in the source NOW, give the 18 binary and 4 unary
   operators exactly C's levels (6.5.3 .. 6.5.14), all binary operators left-associative, `?` the
   lowest level and right-associative, and contain nothing else. *)
Theorem C02_tables_are_C :
  (forall o, lookup (bspell o) binary_operators = Some (level o, LEFT)) /\
  lookup "?" binary_operators = Some (1%nat, RIGHT) /\
  (forall o, lookup (uspell o) unary_operators = Some (12%nat, RIGHT)) /\
  (forall s p, lookup s binary_operators = Some p -> s = "?" \/ exists o, s = bspell o) /\
  (forall s p, lookup s unary_operators = Some p -> exists o, s = uspell o) /\
  (forall o, (1 < level o < 12)%nat).
Proof. exact tables_are_C. Qed.
Print Assumptions C02_tables_are_C.

(* Every ordered pair of binary operators (all 18 x 18, symbolic operands): `a o1 b o2 c` groups
   as C's grammar says - to the left unless o2 binds strictly tighter than o1. *)
Theorem C02_pairs :
  forall sa sb sc va vb vc, lit_value sa = inr va -> lit_value sb = inr vb -> lit_value sc = inr vc ->
  forall o1 o2,
    evaluate [num sa; bop o1; num sb; bop o2; num sc] =
    oval (if (level o2 <=? level o1)%nat
          then obind (mbin o1 va vb) (fun x => mbin o2 x vc)
          else obind (mbin o2 vb vc) (fun y => mbin o1 va y)).
Proof. exact pairs. Qed.
Print Assumptions C02_pairs.

Theorem C02_unary_binds_tighter :
  forall sa sb va vb, lit_value sa = inr va -> lit_value sb = inr vb ->
  forall u o,
    evaluate [uop u; num sa; bop o; num sb] = oval (obind (mun u va) (fun x => mbin o x vb)) /\
    evaluate [num sa; bop o; uop u; num sb] = oval (obind (mun u vb) (fun y => mbin o va y)).
Proof. intros sa sb va vb Ha Hb u o. exact (conj (unary_binds_tighter sa sb va vb Ha Hb u o) (unary_operand_is_unary sa sb va vb Ha Hb u o)). Qed.
Print Assumptions C02_unary_binds_tighter.

Theorem C02_ternary_lowest :
  forall sa sb sc sd va vb vc vd,
    lit_value sa = inr va -> lit_value sb = inr vb -> lit_value sc = inr vc -> lit_value sd = inr vd ->
  forall o,
    evaluate [num sa; bop o; num sb; qm; num sc; colon; num sd] = oval (obind (mbin o va vb) (fun x => Some (cond_value x vc vd))) /\
    evaluate [num sa; qm; num sb; bop o; num sc; colon; num sd] = oval (obind (mbin o vb vc) (fun x => Some (cond_value va x vd))) /\
    evaluate [num sa; qm; num sb; colon; num sc; bop o; num sd] = oval (obind (mbin o vc vd) (fun x => Some (cond_value va vb x))).
Proof.
  intros sa sb sc sd va vb vc vd Ha Hb Hc Hd o.
  exact (conj (ternary_lowest_cond sa sb sc sd va vb vc vd Ha Hb Hc Hd o)
        (conj (ternary_lowest_then sa sb sc sd va vb vc vd Ha Hb Hc Hd o)
              (ternary_lowest_else sa sb sc sd va vb vc vd Ha Hb Hc Hd o))).
Qed.
Print Assumptions C02_ternary_lowest.

Theorem C02_ternary_right_assoc :
  forall sa sb sc sd se va vb vc vd ve,
    lit_value sa = inr va -> lit_value sb = inr vb -> lit_value sc = inr vc -> lit_value sd = inr vd -> lit_value se = inr ve ->
    evaluate [num sa; qm; num sb; colon; num sc; qm; num sd; colon; num se] = OVal (cond_value va vb (cond_value vc vd ve)) /\
    evaluate [num sa; qm; num sb; qm; num sc; colon; num sd; colon; num se] = OVal (cond_value va (cond_value vb vc vd) ve).
Proof.
  intros sa sb sc sd se va vb vc vd ve Ha Hb Hc Hd He.
  exact (conj (ternary_right_assoc sa sb sc sd se va vb vc vd ve Ha Hb Hc Hd He)
              (ternary_nested_then sa sb sc sd se va vb vc vd ve Ha Hb Hc Hd He)).
Qed.
Print Assumptions C02_ternary_right_assoc.

(* Operator semantics: wherever ISO C defines the value of a strict binary operator on
   intmax_t/uintmax_t operands (usual arithmetic conversions, / and % truncating toward zero,
   relational and equality operators yielding 0 or 1 of type int, shifts typed by their left
   operand), M's __apply_binary_op computes exactly that value; && and || yield exactly 0 or 1;
   the unary operators agree on every representable operand; ?: converts the selected operand
   to the common type of the second and third. *)
Theorem C02_operator_semantics :
  (forall o a b v, strict o = true -> bin_sem o a b = Some v -> apply_binary (bspell o) a b = Some v) /\
  (forall a b, apply_binary "&&" a b = Some (truth (negb (Z.eqb (vz a) 0) && negb (Z.eqb (vz b) 0)))) /\
  (forall a b, apply_binary "||" a b = Some (truth (negb (Z.eqb (vz a) 0) || negb (Z.eqb (vz b) 0)))) /\
  (forall o v, in_range v -> apply_unary (uspell o) v = Some (un_sem o v)) /\
  (forall c t f, in_range t -> in_range f ->
     cond_value c t f = convert (if Z.eqb (vz c) 0 then f else t) (vu t || vu f)).
Proof. exact (conj bin_sem_ok (conj land_ok (conj lor_ok (conj un_sem_ok cond_value_ok)))). Qed.
Print Assumptions C02_operator_semantics.

(* no operator of the table can raise in M (so evaluating the operand C would skip is harmless) *)
Theorem C02_operators_total :
  (forall o a b, exists v, apply_binary (bspell o) a b = Some v /\ in_range v) /\
  (forall o a, exists v, apply_unary (uspell o) a = Some v /\ in_range v).
Proof. exact (conj apply_binary_total apply_unary_total). Qed.
Print Assumptions C02_operators_total.

(* Integer constants, PARTIAL: all four bases, any number of digits, every legal suffix spelling;
   what is missing from the full statement is exactly the guard - an octal/hex/binary constant
   without u whose value is in [2^63, 2^64) (S: uintmax_t; the code: OverflowError; finding
   hex-intmax-overflow, pinned by tests/failure/test_bignum.py). *)
Theorem C02_literals_partial :
  forall body sfx v, lit_sem body sfx = Some v -> (vu v = true -> suffix_unsigned sfx = true) ->
    lit_value (body ++ sfx) = inr v.
Proof. exact literals_ok. Qed.
Print Assumptions C02_literals_partial.

Theorem C02_literals_refuted :
  exists body sfx v, lit_sem body sfx = Some v /\ lit_value (body ++ sfx) <> inr v.
Proof. exact literals_hex_intmax_refuted. Qed.
Print Assumptions C02_literals_refuted.

Theorem C02_charconst : forall s v, char_sem s = Some v -> char_value s = inr v.
Proof. exact charconst_ok. Qed.
Print Assumptions C02_charconst.

(* an identifier left after expansion is read exactly like the constant 0, in any context *)
Theorem C02_unknown_identifier_zero :
  forall f p n r, starts_call r = false ->
    expression (S f) p (Tok KId n :: r) = expression (S f) p (num "0" :: r).
Proof. exact identifier_is_zero. Qed.
Print Assumptions C02_unknown_identifier_zero.

(* `defined X` and `defined(X)` become 1 or 0 according to the macro table, in any context,
   and evaluate to that truth value *)
Theorem C02_defined_forms :
  (forall env n r, String.eqb n "(" = false ->
     expand env (Tok KId "defined" :: Tok KId n :: r) =
     match expand env r with inr out => inr (num_tok (is_defined env n) :: out) | inl e => inl e end) /\
  (forall env n r,
     expand env (Tok KId "defined" :: lpar :: Tok KId n :: rpar :: r) =
     match expand env r with inr out => inr (num_tok (is_defined env n) :: out) | inl e => inl e end) /\
  (forall env n paren, String.eqb n "(" = false ->
     evaluate_for_platform env (dt_source n paren) = OVal (truth (is_defined env n))).
Proof. exact (conj defined_plain (conj defined_paren defined_value)). Qed.
Print Assumptions C02_defined_forms.

(* The last sentence of the property.  (1) For EVERY evaluator of conditions - including one that
   fails on some conditions - the tree builder + visitor of finder.py computes what the skipping
   preprocessor computes (this is C01's attribution theorem, re-exported); (2) the skipping
   preprocessor's step for an #elif of a chain that has already selected a branch does not consult
   the evaluator: it is the same for any two evaluators.  Hence such an #elif can neither change
   the result nor fail the analysis. *)
Theorem C02_skipped_elif_irrelevant :
  (forall (ST ACT COND : Type) (mark : nat -> ST -> ST) (exec : ACT -> ST -> res ST)
          (ev : COND -> ST -> res bool) (its : list (Spec.C01.item ACT COND)) (p : ST),
     Model.C01.run_M ST ACT COND mark exec ev (Spec.C01.flats ACT COND its) p =
     Spec.C01.run_S ST ACT COND mark exec ev (Spec.C01.flats ACT COND its) p) /\
  (forall (ST ACT COND : Type) (mark : nat -> ST -> ST) (exec : ACT -> ST -> res ST)
          (ev1 ev2 : COND -> ST -> res bool) (s : Spec.C01.sst ST) f r id c,
     Spec.C01.sstk ST s = f :: r -> Spec.C01.taken f = true ->
     Spec.C01.sstep ST ACT COND mark exec ev1 s (id, Model.C01.KElif c) =
     Spec.C01.sstep ST ACT COND mark exec ev2 s (id, Model.C01.KElif c)).
Proof. exact (conj Proofs.C01.attribution skipped_elif_step). Qed.
Print Assumptions C02_skipped_elif_irrelevant.

(* THE UNBOUNDED STATEMENTS (every expression tree: any size, any nesting depth).

   [tokens dt 0 e] is the token sequence ISO C's grammar (6.5.3 - 6.5.15) assigns to the tree e:
   operands written at the level the grammar requires, parenthesised exactly when their own level is
   lower, explicit EParen nodes adding redundant parentheses anywhere.

   Grammar soundness: M's precedence-climbing parser, run on those tokens with the fuel evaluate()
   really uses, never runs out of fuel and yields the bottom-up value of the tree under M's own
   operators ([meval]; defined for every tree whose constants M can read - no UB side condition). *)
Theorem C02_grammar_sound :
  forall defs e v, meval defs e = Some v -> evaluate (tokens (dt_expanded defs) 0 e) = OVal v.
Proof. exact grammar_sound. Qed.
Print Assumptions C02_grammar_sound.

(* Evaluation, PARTIAL: whenever ISO C defines the value of e ([sem]: usual arithmetic conversions,
   truncating division, 0/1 results, short-circuit && || and ?: whose unselected operand may divide
   by zero, the type of ?: taken from both branches, constants in every base/suffix, character
   constants, identifiers = 0, defined), M evaluates the tokens of e to exactly that value and type.
   Missing from the full statement: [guard e], which excludes only trees containing a constant of
   the known finding class (octal/hex/binary without u in [2^63, 2^64)); C02_literals_refuted shows
   the guard is needed. *)
Theorem C02_evaluation_partial :
  forall defs e v, sem defs e = Some v -> guard e = true ->
    evaluate (tokens (dt_expanded defs) 0 e) = OVal v.
Proof. exact evaluation_ok. Qed.
Print Assumptions C02_evaluation_partial.

(* The same through IfNode.evaluate_for_platform, from the tokens as written in the source
   (`defined X`, `defined(X)`), for every macro table env whose macros are not used as plain
   identifiers in e (expansion proper is C03's subject). *)
Theorem C02_evaluate_for_platform_partial :
  forall env e v, ids_ok env e = true -> guard e = true -> sem (map fst env) e = Some v ->
    evaluate_for_platform env (tokens dt_source 0 e) = OVal v.
Proof. exact evaluate_for_platform_ok. Qed.
Print Assumptions C02_evaluate_for_platform_partial.

(* The lexer (UNBOUNDED): for every tree whose constants ISO C accepts ([static e] defined) and whose
   identifiers are identifiers, the model of Lexer.tokenize (number with exponents, character
   constants with escapes, identifiers, maximal-munch operators and punctuators over the lists
   generated from the source, whitespace) run on the text of e - token spellings separated by single
   blanks, character constants between quotes - returns exactly the token sequence of e. *)
Theorem C02_lexer_tokens :
  forall need e u, static e = Some u -> names_ok e = true ->
    tokenize (join (tokens dt_source need e)) = Some (tokens dt_source need e).
Proof. exact lex_tokens. Qed.
Print Assumptions C02_lexer_tokens.

(* From the TEXT of the directive to ISO C's value, PARTIAL (same guard as above):
   Lexer.tokenize -> MacroExpander.expand (defined) -> ExpressionEvaluator.evaluate. *)
Theorem C02_text_to_value_partial :
  forall env e v, names_ok e = true -> ids_ok env e = true -> guard e = true ->
    sem (map fst env) e = Some v ->
    evaluate_text env (join (tokens dt_source 0 e)) = OVal v.
Proof. exact text_to_value. Qed.
Print Assumptions C02_text_to_value_partial.

(* The same for ARBITRARY spacing: after each token any run of blanks/tabs/newlines, or nothing at
   all where the two neighbours cannot merge ([glue_ok]: decidable; e.g. no blank is needed in
   `defined(A)&&-1<0u`, one is needed between `<` and `<=` or between `1` and `u`). *)
Theorem C02_lexer_tokens_spaced :
  forall need e u (ws : list (list Ascii.ascii)), static e = Some u -> names_ok e = true ->
    List.length ws = List.length (tokens dt_source need e) ->
    glue_ok (combine (tokens dt_source need e) ws) = true ->
    tokenize (glue (combine (tokens dt_source need e) ws)) = Some (tokens dt_source need e).
Proof. exact lex_tokens_spaced. Qed.
Print Assumptions C02_lexer_tokens_spaced.

Theorem C02_text_to_value_spaced_partial :
  forall env e v (ws : list (list Ascii.ascii)),
    names_ok e = true -> ids_ok env e = true -> guard e = true -> sem (map fst env) e = Some v ->
    List.length ws = List.length (tokens dt_source 0 e) ->
    glue_ok (combine (tokens dt_source 0 e) ws) = true ->
    evaluate_text env (glue (combine (tokens dt_source 0 e) ws)) = OVal v.
Proof. exact text_to_value_spaced. Qed.
Print Assumptions C02_text_to_value_spaced_partial.

(* Fuel: for EVERY token list and EVERY text - well-formed or not - the fuel the model gives itself
   suffices; "out of fuel" is unreachable, so M is a total function of its input. *)
Theorem C02_fuel_suffices :
  (forall ts, evaluate ts <> OOutOfFuel) /\
  (forall s, tokenize s <> None) /\
  (forall env s, evaluate_text env s <> OOutOfFuel).
Proof. exact (conj evaluate_never_out_of_fuel (conj tokenize_total evaluate_text_never_out_of_fuel)). Qed.
Print Assumptions C02_fuel_suffices.

(* non-vacuity: 2 + 3 * 4 - 1 is 13, and -7 / 2 is -3 *)
Example C02_nonvacuous :
  evaluate [num "2"; bop BAdd; num "3"; bop BMul; num "0x4uLL"; bop BSub; num "01"] = OVal (V 13 true) /\
  evaluate [uop UNeg; num "7"; bop BDiv; num "2"] = OVal (V (-3) false) /\
  lit_value "0x4uLL" = inr (V 4 true).
Proof. vm_compute. repeat split; reflexivity. Qed.

(* non-vacuity of the unbounded theorems: (defined(A) && -1 < 0u) || 010 / (1 ? 2 : 1 / 0) == 4
   has a value in ISO C although it contains 1/0, meets the guards, and M computes that value *)
Definition C02_example : expr :=
  EBin BLor
    (EParen (EBin BLand (EDefined "A" true) (EBin BLt (EUn UNeg (ELit "1" "")) (ELit "0" "u"))))
    (EBin BEq (EBin BDiv (ELit "010" "") (EParen (ECond (ELit "1" "") (ELit "2" "") (EBin BDiv (ELit "1" "") (ELit "0" "")))))
              (ELit "4" "")).
Example C02_nonvacuous_unbounded :
  sem ["A"] C02_example = Some (V 1 false) /\
  guard C02_example = true /\ ids_ok [("A", [])] C02_example = true /\
  evaluate_for_platform [("A", [])] (tokens dt_source 0 C02_example) = OVal (V 1 false) /\
  List.length (tokens dt_source 0 C02_example) = 25%nat /\
  names_ok C02_example = true /\
  string_of_list (join (tokens dt_source 0 C02_example)) =
    "( defined ( A ) && - 1 < 0u ) || 010 / ( 1 ? 2 : 1 / 0 ) == 4" /\
  evaluate_text [("A", [])] (list_of_string "( defined ( A ) && - 1 < 0u ) || 010 / ( 1 ? 2 : 1 / 0 ) == 4") = OVal (V 1 false) /\
  (* no blank at all is an admissible spacing of this example *)
  glue_ok (combine (tokens dt_source 0 C02_example) (repeat [] 25)) = true /\
  string_of_list (glue (combine (tokens dt_source 0 C02_example) (repeat [] 25))) =
    "(defined(A)&&-1<0u)||010/(1?2:1/0)==4".
Proof. vm_compute. repeat split; reflexivity. Qed.
