(* C02 — #if expressions are evaluated with C integer-constant-expression semantics.
   Only statements, each closed by [exact], with its assumptions printed.
   M = Model/C02.v (ExpressionEvaluator over the tables generated from the source),
   S = Spec/C02.v (ISO C). *)
From Coq Require Import ZArith Bool String List.
From CBI Require Import Lib.Data Gen.C02_tables Model.C02 Spec.C02 Proofs.C02.
Import ListNotations.
Local Open Scope string_scope.

(* The tables in preprocessor.py, as they are in the source NOW, give the 18 binary and 4 unary
   operators exactly C's levels (6.5.3 .. 6.5.14), all binary operators left-associative, `?` the
   lowest level and right-associative, and contain nothing else. *)
Theorem C02_tables_are_C :
  (forall o, lookup (bspell o) binary_operators = Some (level o, LEFT)) /\
  lookup "?" binary_operators = Some (1%nat, RIGHT) /\
  (forall o, lookup (uspell o) unary_operators = Some (12%nat, RIGHT)) /\
  (forall s p, lookup s binary_operators = Some p -> s = "?" \/ exists o, s = bspell o) /\
  (forall s p, lookup s unary_operators = Some p -> exists o, s = uspell o) /\
  (forall o, (1 < level o < 12)%nat).
Proof. exact tables_are_C. Qed.
Print Assumptions C02_tables_are_C.

(* Every ordered pair of binary operators (all 18 x 18, symbolic operands): `a o1 b o2 c` groups
   as C's grammar says - to the left unless o2 binds strictly tighter than o1. *)
Theorem C02_pairs :
  forall sa sb sc va vb vc, lit_value sa = inr va -> lit_value sb = inr vb -> lit_value sc = inr vc ->
  forall o1 o2,
    evaluate [num sa; bop o1; num sb; bop o2; num sc] =
    oval (if (level o2 <=? level o1)%nat
          then obind (mbin o1 va vb) (fun x => mbin o2 x vc)
          else obind (mbin o2 vb vc) (fun y => mbin o1 va y)).
Proof. exact pairs. Qed.
Print Assumptions C02_pairs.

Theorem C02_unary_binds_tighter :
  forall sa sb va vb, lit_value sa = inr va -> lit_value sb = inr vb ->
  forall u o,
    evaluate [uop u; num sa; bop o; num sb] = oval (obind (mun u va) (fun x => mbin o x vb)) /\
    evaluate [num sa; bop o; uop u; num sb] = oval (obind (mun u vb) (fun y => mbin o va y)).
Proof. intros sa sb va vb Ha Hb u o. exact (conj (unary_binds_tighter sa sb va vb Ha Hb u o) (unary_operand_is_unary sa sb va vb Ha Hb u o)). Qed.
Print Assumptions C02_unary_binds_tighter.

Theorem C02_ternary_lowest :
  forall sa sb sc sd va vb vc vd,
    lit_value sa = inr va -> lit_value sb = inr vb -> lit_value sc = inr vc -> lit_value sd = inr vd ->
  forall o,
    evaluate [num sa; bop o; num sb; qm; num sc; colon; num sd] = oval (obind (mbin o va vb) (fun x => Some (cond_value x vc vd))) /\
    evaluate [num sa; qm; num sb; bop o; num sc; colon; num sd] = oval (obind (mbin o vb vc) (fun x => Some (cond_value va x vd))) /\
    evaluate [num sa; qm; num sb; colon; num sc; bop o; num sd] = oval (obind (mbin o vc vd) (fun x => Some (cond_value va vb x))).
Proof.
  intros sa sb sc sd va vb vc vd Ha Hb Hc Hd o.
  exact (conj (ternary_lowest_cond sa sb sc sd va vb vc vd Ha Hb Hc Hd o)
        (conj (ternary_lowest_then sa sb sc sd va vb vc vd Ha Hb Hc Hd o)
              (ternary_lowest_else sa sb sc sd va vb vc vd Ha Hb Hc Hd o))).
Qed.
Print Assumptions C02_ternary_lowest.

Theorem C02_ternary_right_assoc :
  forall sa sb sc sd se va vb vc vd ve,
    lit_value sa = inr va -> lit_value sb = inr vb -> lit_value sc = inr vc -> lit_value sd = inr vd -> lit_value se = inr ve ->
    evaluate [num sa; qm; num sb; colon; num sc; qm; num sd; colon; num se] = OVal (cond_value va vb (cond_value vc vd ve)) /\
    evaluate [num sa; qm; num sb; qm; num sc; colon; num sd; colon; num se] = OVal (cond_value va (cond_value vb vc vd) ve).
Proof.
  intros sa sb sc sd se va vb vc vd ve Ha Hb Hc Hd He.
  exact (conj (ternary_right_assoc sa sb sc sd se va vb vc vd ve Ha Hb Hc Hd He)
              (ternary_nested_then sa sb sc sd se va vb vc vd ve Ha Hb Hc Hd He)).
Qed.
Print Assumptions C02_ternary_right_assoc.

(* non-vacuity: 2 + 3 * 4 - 1 is 13, and -7 / 2 is -3 *)
Example C02_nonvacuous :
  evaluate [num "2"; bop BAdd; num "3"; bop BMul; num "0x4uLL"; bop BSub; num "01"] = OVal (V 13 true) /\
  evaluate [uop UNeg; num "7"; bop BDiv; num "2"] = OVal (V (-3) false) /\
  lit_value "0x4uLL" = inr (V 4 true).
Proof. vm_compute. repeat split; reflexivity. Qed.
