(* C11 - placeholder while the proofs are being written *)
From Coq Require Import String List.
From CBI Require Import Model.C11 Model.C11sh Spec.C11.
Import ListNotations.
Local Open Scope string_scope.

Example C11_nonvacuous :
  lists_of (parse_args ["-DX"; "-g3"; "-I"; "inc"; "-MF"; "x.d"; "-include"; "f.h"; "a.c"])
  = Some ([Some "X"], [Some "inc"], [Some "f.h"]).
Proof. vm_compute. reflexivity. Qed.
