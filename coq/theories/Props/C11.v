(* C11 — -D/-I/-isystem/-include are extracted from any command line, robustly.
   Only statements; each is closed by [exact] and its assumptions are printed.

   parse_args   = Model/C11.v : config.ArgumentParser.parse_args (argparse.parse_known_args over the
                  option table regenerated from the source, Gen/C11_tables.v), default pass
   scan_S       = Spec/C11.v  : the scanner the property describes; scan4_S keeps one list per option (-D, -I, -isystem,
                  -include), scan_S = flat4 scan4_S puts the -I directories before the -isystem directories (the order in
                  which a compiler searches them); likewise lists4_of / lists_of for the parser
   safe         = Spec/C11safe.v : the domain of the proof; its conjuncts are refuted one by one below
   split_string / quote_join = Model/C11sh.v : shlex.split / shlex.join                              *)
From Coq Require Import Ascii String Bool List.
From CBI Require Import Lib.Data Lib.C11_types Gen.C11_tables Model.C11 Model.C11sh Spec.C11 Spec.C11safe Spec.C11safe_more Spec.C11sh
                        Proofs.C11 Proofs.C11exit Proofs.C11prefix Proofs.C11sh Proofs.C11shr.
Import ListNotations.
Local Open Scope string_scope.

(* PARTIAL (the full statement has no [safe] hypothesis; it is refuted class by class below):
   on every safe argument vector, of any length, the parser returns normally and the three lists
   are exactly the scanner's, in the scanner's order. *)
Theorem C11_safe_domain : forall argv : list string,
  safe argv = true ->
  (exists a, parse_args argv = ROk a) /\ lists_of (parse_args argv) = Some (some3 (scan_S argv)).
Proof. exact safe_domain. Qed.
Print Assumptions C11_safe_domain.

(* one closed witness per conjunct of [safe]: the guard cannot silently become vacuous *)
Definition differs (argv : list string) : Prop :=
  lists_of (parse_args argv) <> Some (some3 (scan_S argv)).

Theorem C11_unsafe_refuted_attached_long :
  exists argv, existsb cl_attached_long argv = true /\ differs argv.
Proof. exists ["-isystem/d"]. split; [reflexivity|]. vm_compute. discriminate. Qed.
Print Assumptions C11_unsafe_refuted_attached_long.

Theorem C11_unsafe_refuted_eq_value :
  exists argv, existsb cl_eq_value argv = true /\ differs argv.
Proof. exists ["-I=d"]. split; [reflexivity|]. vm_compute. discriminate. Qed.
Print Assumptions C11_unsafe_refuted_eq_value.

Theorem C11_unsafe_refuted_dashdash_value :
  exists argv, existsb cl_dashdash_value argv = true /\ differs argv.
Proof. exists ["-D--"]. split; [reflexivity|]. vm_compute. discriminate. Qed.
Print Assumptions C11_unsafe_refuted_dashdash_value.

Theorem C11_unsafe_refuted_abbrev :
  exists argv, existsb cl_abbrev argv = true /\ differs argv.
Proof. exists ["-is"; "d"]. split; [reflexivity|]. vm_compute. discriminate. Qed.
Print Assumptions C11_unsafe_refuted_abbrev.

(* the abbreviation -i is ambiguous: parser.error before any action ran; since the third repair an
   ArgumentError, caught: a warning and an EMPTY configuration (-DX is lost) instead of SystemExit(2) *)
Theorem C11_unsafe_refuted_abbrev_ambiguous :
  exists argv, existsb cl_abbrev argv = true /\ differs argv /\ parse_args argv = RWarned acc0.
Proof. exists ["-DX"; "-i"]. split; [reflexivity|]. split; [vm_compute; discriminate|reflexivity]. Qed.
Print Assumptions C11_unsafe_refuted_abbrev_ambiguous.

Theorem C11_unsafe_refuted_dashdash :
  exists argv, existsb cl_dashdash argv = true /\ differs argv.
Proof. exists ["-DA"; "--"; "-DB"]. split; [reflexivity|]. vm_compute. discriminate. Qed.
Print Assumptions C11_unsafe_refuted_dashdash.

(* a separate value that begins with '-': ArgumentError, caught; everything from there on is lost *)
Theorem C11_unsafe_refuted_dash_value :
  exists argv, forallb tok_safe argv = true /\ safe argv = false /\ differs argv /\
               exists a, parse_args argv = RWarned a.
Proof.
  exists ["-I"; "-d"; "-DX"]. split; [reflexivity|]. split; [reflexivity|]. split.
  - vm_compute. discriminate.
  - eexists. vm_compute. reflexivity.
Qed.
Print Assumptions C11_unsafe_refuted_dash_value.

(* a value-taking flag as the last argument: the lists agree but the parse ends in the warning branch *)
Theorem C11_unsafe_refuted_missing_value :
  exists argv, forallb tok_safe argv = true /\ safe argv = false /\ ~ (exists a, parse_args argv = ROk a).
Proof.
  exists ["-DX"; "-include"]. split; [reflexivity|]. split; [reflexivity|].
  intros [a H]. vm_compute in H. discriminate.
Qed.
Print Assumptions C11_unsafe_refuted_missing_value.

(* with the generated table an ArgumentError never leaves parse_args (the second repair) *)
Theorem C11_argument_error_contained : forall argv : list string, parse_args argv <> RRaise.
Proof. exact never_raises. Qed.
Print Assumptions C11_argument_error_contained.

(* FULL (all argument vectors, no [safe]): parse_args always returns a configuration, either normally or through
   the caught-ArgumentError warning branch.  Nothing aborts the analysis (generated c11_argerror_caught and
   c11_error_raises are both true). *)
Theorem C11_no_abort : forall argv : list string,
  exists a, parse_args argv = ROk a \/ parse_args argv = RWarned a.
Proof. exact no_abort. Qed.
Print Assumptions C11_no_abort.

(* FULL in the continuation (l2 is ARBITRARY apart from the literal "-i", whose ambiguity is detected before any
   option is processed - see C11_unsafe_refuted_abbrev_ambiguous): whatever follows a safe prefix, everything the
   prefix gives is in the configuration, in order, followed by exactly what the rest contributes when parsed on its
   own.  So each finding class can only cost the options that come AFTER its first occurrence. *)
Theorem C11_safe_prefix_kept : forall l1 l2 : list string,
  safe l1 = true -> ~ In "-i" l2 ->
  exists rest, lists4_of (parse_args l2) = Some rest /\
               lists4_of (parse_args (List.app l1 l2)) = Some (app4v (some4 (scan4_S l1)) rest).
Proof. exact safe_prefix_compose. Qed.
Print Assumptions C11_safe_prefix_kept.

(* ... and a catalogue option placed after a safe prefix is neutral WHATEVER follows (l2 arbitrary, "-i" excepted) *)
Theorem C11_unknown_neutral_any_tail : forall l1 e l2 : list string,
  safe l1 = true -> In e c11_catalogue -> ~ In "-i" l2 ->
  lists_of (parse_args (List.app l1 (List.app e l2))) = lists_of (parse_args (List.app l1 l2)).
Proof. exact neutral_any_tail. Qed.
Print Assumptions C11_unknown_neutral_any_tail.

(* order: per option (-D, -I, -isystem, -include) the scanner is a homomorphism at every point where no flag awaits
   its value (all argv): each of the four lists is in command-line order ... *)
Theorem C11_order_S : forall l1 l2 : list string,
  complete l1 = true -> scan4_S (l1 ++ l2) = app4 (scan4_S l1) (scan4_S l2).
Proof. exact scan_app. Qed.
Print Assumptions C11_order_S.

(* ... and so is the parser.  PARTIAL: within [safe]. *)
Theorem C11_order_partial : forall l1 l2 : list string,
  closed l1 = true -> safe (l1 ++ l2) = true ->
  exists a1 a2, lists4_of (parse_args l1) = Some a1 /\ lists4_of (parse_args l2) = Some a2 /\
                lists4_of (parse_args (l1 ++ l2)) = Some (app4v a1 a2).
Proof. exact parse_order. Qed.
Print Assumptions C11_order_partial.

(* unknown options are neutral: for the scanner, any group of unrecognised tokens at any complete point (all argv) ... *)
Theorem C11_unknown_neutral_S : forall (l1 e l2 : list string),
  complete l1 = true -> forallb unrecognised e = true -> scan_S (l1 ++ e ++ l2) = scan_S (l1 ++ l2).
Proof. exact neutral_S. Qed.
Print Assumptions C11_unknown_neutral_S.

(* ... and for the parser every entry of the generated catalogue (harness/c11_catalogue.py), inserted at any
   closed point of any safe vector, keeps the vector safe and the three lists unchanged.  PARTIAL: within [safe]. *)
Theorem C11_unknown_neutral_partial : forall (l1 l2 e : list string),
  In e c11_catalogue -> closed l1 = true -> safe (l1 ++ l2) = true ->
  safe (l1 ++ e ++ l2) = true /\
  lists_of (parse_args (l1 ++ e ++ l2)) = lists_of (parse_args (l1 ++ l2)).
Proof. exact neutral_catalogue. Qed.
Print Assumptions C11_unknown_neutral_partial.

(* the `command` string and the `arguments` array are equivalent: for every argv over all byte values *)
Theorem C11_shlex_roundtrip : forall argv : list string, split_string (quote_join argv) = inr argv.
Proof. exact split_quote_join. Qed.
Print Assumptions C11_shlex_roundtrip.

(* ... and not only for strings produced by shlex.join: EVERY POSIX-shell rendering of an argument vector (Spec/C11sh.v:
   words written as any mixture of plain characters, backslash escapes, single-quoted and double-quoted runs, separated
   by any non-empty white space, with optional leading and trailing white space) is read back as that vector *)
Theorem C11_shlex_any_rendering : forall (l : list (list seg * word)) (sep0 : word),
  cmd_ok l = true -> forallb is_ws sep0 = true ->
  split (List.app sep0 (render_cmd l)) = inr (map (fun ws => value_word (fst ws)) l).
Proof. exact split_render. Qed.
Print Assumptions C11_shlex_any_rendering.

(* non-vacuity: a safe vector with both spellings of all four options, values with '=', quotes and blanks,
   and a dozen catalogue options around them; an insertion point; the command string form *)
Definition C11_example : list string :=
  ["-O2"; "-g3"; "-DX"; "-D"; "FOO=""a b"""; "-ccbin"; "g++"; "-isystem"; "/opt/sys"; "-Iinc"; "-I"; "../x y"; "-MF"; "x.d";
   "-std=c++17"; "-include"; "pre fix.h"; "-Wl,-rpath=/x"; "-fopenmp=libomp";
   "-c"; "a.c"; "-o"; "a.o"; "-O"; "-Xlinker"; "--no-undefined"].
(* gcc -DMSG=\"a b\" "-I../x y" '-include' pre\ fix.h   (CMake / bear style quoting) *)
Definition C11_example_rendering : list (list seg * word) :=
  let sp := [" "%char] in
  let plain (s : string) := map SP (list_of_string s) in
  [ (plain "gcc", sp);
    (List.app (plain "-DMSG=") (SE """"%char :: List.app (plain "a") (SE " "%char :: List.app (plain "b") [SE """"%char])), sp);
    ([SD (map DP (list_of_string "-I../x y"))], [" "%char; " "%char]);
    ([SS (list_of_string "-include")], sp);
    (List.app (plain "pre") (SE " "%char :: plain "fix.h"), []) ].
Example C11_nonvacuous :
  safe C11_example = true /\
  lists_of (parse_args C11_example)
    = Some ([Some "X"; Some "FOO=""a b"""], [Some "inc"; Some "../x y"; Some "/opt/sys"], [Some "pre fix.h"]) /\
  closed (firstn 5 C11_example) = true /\
  existsb (fun e => if list_eq_dec string_dec e ["-cxx-isystem"; "/opt/inc"] then true else false) c11_catalogue = true /\
  Nat.leb 150 (length c11_catalogue) = true /\
  split_string (quote_join C11_example) = inr C11_example /\
  cmd_ok C11_example_rendering = true /\
  map string_of_list (map (fun ws => value_word (fst ws)) C11_example_rendering)
    = ["gcc"; "-DMSG=""a b"""; "-I../x y"; "-include"; "pre fix.h"].
Proof. vm_compute. repeat split. Qed.
