(* C06 - Every counted line lands in exactly one platform set; all reports agree.
   Statements only. *)
From Coq Require Import ZArith QArith String Bool Arith Permutation Sorted List.
From CBI Require Import Lib.Data Lib.Res Model.C06 Spec.C06 Proofs.C06 Proofs.C06tree Proofs.C06more Proofs.C06letters Proofs.C06rowsx Proofs.C06leaf.
Import ListNotations.
Local Open Scope Z_scope.

(* The values of the setmap add up to the SLOC of the code base: the sum of
   num_lines over all nodes of all files that are not symlinks to another
   member.  More generally every figure read off the setmap (sum of the values
   whose key satisfies P) is that sum restricted to the nodes whose platform set
   satisfies P.  No hypothesis. *)
Theorem C06_setmap_total : forall files,
  sm_total (get_setmap files) = sloc files /\
  forall P, sum_if P (get_setmap files) = spec_sum P files.
Proof. intros files. split; [apply setmap_total | intros P; apply setmap_sums]. Qed.
Print Assumptions C06_setmap_total.

(* The summary table.  get_setmap is exactly the table of buckets (one entry per
   platform set that occurs on a node of a counted file, in first-occurrence
   order, holding the sum of num_lines over those nodes).  report.summary
   never raises (a zero total prints NaN percentages); its rows are a permutation of the buckets, no platform set occurs
   twice, each row carries count = its bucket and the denominator = SLOC (the
   printed percentage is count / denominator * 100), rows are ordered by
   non-decreasing size of the platform set (ties broken by the sorted
   names in the model; that part is observed by the correspondence only), and "Total SLOC" is the SLOC. *)
Theorem C06_rows : forall files,
  get_setmap files = spec_buckets files /\
  (forall rows total, summary (get_setmap files) = Ok (rows, total) ->
     total = sloc files /\
     Permutation (map (fun r => (skey r, scount r)) rows) (spec_buckets files) /\
     Forall (fun r => scount r = bucket (skey r) files /\ stotal r = sloc files) rows /\
     NoDup (map skey rows) /\
     StronglySorted (fun a b => (List.length (skey a) <= List.length (skey b))%nat) rows) /\
  (exists rows, summary (get_setmap files) = Ok (rows, sloc files)).
Proof.
  intros files. split; [apply get_setmap_exact|]. split; [intros rows total; apply summary_rows | apply summary_never_fails].
Qed.
Print Assumptions C06_rows.

(* Partition.  For a well-formed analysis result (every node counts exactly the
   lines it lists, no physical line of a file is listed twice: C05's business)
   every figure of the setmap is the NUMBER OF LINES of the counted files whose
   node's platform set satisfies P, and every listed line of every file lies in
   the line set of exactly one platform set. *)
Theorem C06_partition : forall files, Forall file_ok files ->
  (forall P, sum_if P (get_setmap files) = line_count P files) /\
  (forall f, In f files -> forall l, In l (all_lines f) ->
     exists k, In l (lines_with (key_eqb k) f) /\ forall k', In l (lines_with (key_eqb k') f) -> k' = k).
Proof. exact partition. Qed.
Print Assumptions C06_partition.

(* Coverage export.  One entry per code-base file, in order, with the file's path
   and content id; used_lines / unused_lines are exactly the listed lines whose
   owning node has a non-empty / empty platform set, together they are a
   duplicate-free rearrangement of the file's counted lines, and their lengths are
   the used / unused figures of the file's own setmap (the file's row in the tree). *)
Theorem C06_export_partition : forall files, Forall file_ok files ->
  map epath (export files) = map fpath files /\ map eid (export files) = map fid files /\
  Forall2 (fun f e =>
     eused e = spec_used f /\ eunused e = spec_unused f /\
     Permutation (eused e ++ eunused e) (all_lines f) /\ NoDup (eused e ++ eunused e) /\
     (forall l, In l (eused e) <-> In l (all_lines f) /\ line_used f l = true) /\
     (forall l, In l (eunused e) <-> In l (all_lines f) /\ line_used f l = false) /\
     Z.of_nat (List.length (eused e)) = sum_if (fun k => negb (is_empty k)) (file_setmap f) /\
     Z.of_nat (List.length (eunused e)) = sum_if is_empty (file_setmap f)) files (export files).
Proof. exact export_partition. Qed.
Print Assumptions C06_export_partition.

(* Tree aggregation, by induction over the inserts of report.files, for the pruned
   and the unpruned tree alike.  (1) A path q that is not the path of a file: if
   the tree has a node there, it is a directory, not a link, and EVERY figure of
   its setmap (total, used, per platform: the sum of the values whose key
   satisfies P) is the sum over the shown non-link files strictly below q; and
   the tree has a node at q exactly if q is the root or a prefix of a shown
   file's path.  (2) On a code base whose paths are distinct, prefix-free and
   non-empty every shown file has a leaf at its own path which carries the file's
   own setmap, i.e. the sums over the file's own nodes, symlink or not. *)
Theorem C06_tree_dir_sums : forall prune files,
  (forall q, (forall f, In f files -> fpath f <> q) ->
     (forall n, lookup q (files_tree prune files) = Some n ->
        tdir n = true /\ tlink n = false /\ forall P, sum_if P (tsm n) = spec_dir P prune q files) /\
     (lookup q (files_tree prune files) <> None <->
        q = [] \/ exists f, In f files /\ shown prune f = true /\ prefix_eq q (fpath f) = true)) /\
  (wf_paths files -> forall f, In f files -> shown prune f = true ->
     exists n, lookup (fpath f) (files_tree prune files) = Some n /\
       tname n = last (fpath f) EmptyString /\ tdir n = false /\ tlink n = flink f /\ tch n = [] /\
       tsm n = file_setmap f /\ forall P, sum_if P (tsm n) = nodes_sum P (fnodes f)).
Proof.
  intros prune files. split.
  - intros q Hq. split; [|apply tree_present].
    intros n Hn. destruct (tree_dir_kind prune files q n Hn Hq) as [A B]. split; [exact A|]. split; [exact B|].
    intros P. pose proof (tree_dir_sums P prune q files Hq) as H. rewrite Hn in H. exact H.
  - intros Hwf f Hf Hs. destruct (tree_file_node prune files f Hwf Hf Hs) as (n & Hn & A & B & C & D & E).
    exists n. split; [exact Hn|]. split; [exact A|]. split; [exact B|]. split; [exact C|]. split; [exact E|]. split; [exact D|].
    intros P. rewrite D. apply sum_if_file_setmap.
Qed.
Print Assumptions C06_tree_dir_sums.

(* The unpruned root carries the summary's figures: when every iterated symlink
   has its target in the code base (guaranteed by CodeBase.__contains__, checked
   on every case) and no file sits at the root path itself, every figure of the
   root's setmap equals the same figure of get_setmap; in particular the SLOC
   cell of the root row is the summary's Total SLOC. *)
Theorem C06_root_is_summary : forall files, links_ok files -> (forall f, In f files -> fpath f <> []) ->
  (forall P, sum_if P (tsm (files_tree false files)) = sum_if P (get_setmap files)) /\
  (forall rp U, rtotal (mkrow rp U 0 (files_tree false files)) = sloc files) /\
  (forall U lv, exists rest, snd (report_files U false lv files) =
      mkrow (node_plats U (tsm (files_tree false files))) U 0 (files_tree false files) :: rest).
Proof.
  intros files Hl Hne. split; [apply root_is_summary; assumption|]. split.
  - intros rp U. cbn [mkrow rtotal]. unfold sm_total. rewrite (root_is_summary files Hl Hne). apply setmap_total.
  - intros U lv. apply report_root_row.
Qed.
Print Assumptions C06_root_is_summary.

(* --prune drops exactly the files no platform uses: the pruned tree IS the
   unpruned tree of the files that have a node with a non-empty platform set; on
   well-formed paths a file keeps its leaf iff it is used; and no figure that
   ignores the empty platform set (used lines, per-platform lines) changes. *)
Theorem C06_prune_exact : forall files,
  files_tree true files = files_tree false (filter file_used files) /\
  (forall f, file_used f = true <-> exists n, In n (fnodes f) /\ nplat n <> []) /\
  (wf_paths files -> forall f, In f files ->
     (lookup (fpath f) (files_tree true files) <> None <-> file_used f = true)) /\
  (forall P q, P [] = false -> spec_dir P true q files = spec_dir P false q files).
Proof.
  intros files. split; [apply prune_filter|]. split; [apply file_used_iff|].
  split; [intros Hwf f Hf; apply prune_exact; assumption | intros P q; apply prune_keeps_used].
Qed.
Print Assumptions C06_prune_exact.

(* -L k (k > 0) only hides rows: same legend, and the printed rows are exactly
   the rows of the unlimited report whose depth is <= k, in the same order with
   the same cells; k = 0 hides nothing (Python falsy; cbi-tree rejects it). *)
Theorem C06_levels_only_hide : forall U prune k files,
  report_files U prune (Some k) files =
  (fst (report_files U prune None files),
   if (k =? 0)%nat then snd (report_files U prune None files)
   else filter (fun r => (rdepth r <=? k)%nat) (snd (report_files U prune None files))).
Proof. exact report_levels. Qed.
Print Assumptions C06_levels_only_hide.

(* ---- beyond the floor ---- *)

(* The unpruned root's dict is, entry for entry and in the same order, the dict
   report.summary reads (same hypotheses as C06_root_is_summary). *)
Theorem C06_root_setmap_exact : forall files, links_ok files -> (forall f, In f files -> fpath f <> []) ->
  tsm (files_tree false files) = get_setmap files.
Proof. exact root_setmap_exact. Qed.
Print Assumptions C06_root_setmap_exact.

(* report.summary always prints, and when every node counts at least one line a
   non-empty table has a positive denominator, so every percentage is a number. *)
Theorem C06_summary_total : forall files,
  (exists rows, summary (get_setmap files) = Ok (rows, sloc files)) /\
  ((forall f n, In f files -> In n (fnodes f) -> 0 < nnum n) -> spec_keys files <> [] -> 0 < sloc files).
Proof. exact summary_total. Qed.
Print Assumptions C06_summary_total.

(* Every printed cell of a directory row is computed from sums over the shown
   non-link files beneath the directory: SLOC = all their lines, coverage
   numerator = their lines with a non-empty platform set (whatever the legend),
   platform letters = which legend platforms occur on a node beneath, the
   per-platform numerators of the average coverage = their lines used by that
   platform; the legend is the list of platforms that occur beneath the root.
   Hypotheses: the platform names of the analysis all belong to the universe U
   the harness passes, and no file sits at the root path. *)
Theorem C06_tree_rows : forall U prune files q n d, names_in U files ->
  (forall f, In f files -> fpath f <> []) ->
  (forall f, In f files -> fpath f <> q) -> lookup q (files_tree prune files) = Some n ->
  let rp := node_plats U (tsm (files_tree prune files)) in
  let r := mkrow rp U d n in
  rp = filter (fun p => below_any (mem p) prune [] files) U /\
  eff_plats rp U (tsm n) = match rp with [] => filter (fun p => below_any (mem p) prune q files) U | _ => rp end /\
  rtotal r = spec_dir (fun _ => true) prune q files /\
  rused r = spec_dir (fun k => negb (is_empty k)) prune q files /\
  rmask r = map (fun p => below_any (mem p) prune q files) rp /\
  rper r = map (fun p => spec_dir (mem p) prune q files) (eff_plats rp U (tsm n)).
Proof. exact dir_row. Qed.
Print Assumptions C06_tree_rows.

(* The same for the row of a regular (non-link) shown file whose leaf carries the
   file's setmap (which C06_tree_dir_sums guarantees on well-formed paths): its
   cells are computed from sums over the file's own nodes. *)
Theorem C06_tree_file_rows : forall U prune files f n d, names_in U files ->
  (forall g, In g files -> fpath g <> []) ->
  In f files -> shown prune f = true -> flink f = false -> tsm n = file_setmap f ->
  let rp := node_plats U (tsm (files_tree prune files)) in
  let r := mkrow rp U d n in
  rtotal r = nodes_sum (fun _ => true) (fnodes f) /\
  rused r = nodes_sum (fun k => negb (is_empty k)) (fnodes f) /\
  rmask r = map (fun p => existsb (fun x => mem p (nplat x)) (fnodes f)) rp /\
  rper r = map (fun p => nodes_sum (mem p) (fnodes f)) (eff_plats rp U (tsm n)).
Proof. exact file_row. Qed.
Print Assumptions C06_tree_file_rows.

(* Percentages, as rationals: each row's percentage (count / denominator * 100) is
   its bucket over the SLOC times 100, and the percentages of a printed summary
   add up to exactly 100. *)
Theorem C06_percent_sum : forall files rows total,
  summary (get_setmap files) = Ok (rows, total) -> sloc files <> 0 ->
  (forall r, In r rows -> (percent r == inject_Z (bucket (skey r) files) / inject_Z (sloc files) * 100)%Q) /\
  (qsum (map percent rows) == 100)%Q.
Proof. exact percent_sum. Qed.
Print Assumptions C06_percent_sum.

(* All reports agree on the totals: the lines the coverage export lists as used
   (unused) over the counted files are the lines the summary shows in non-empty
   platform sets (in the empty set), their sum is the Total SLOC, and the
   unpruned root of the tree carries the very same dict. *)
Theorem C06_reports_agree : forall files, Forall file_ok files -> links_ok files -> (forall f, In f files -> fpath f <> []) ->
  let used := export_total eused files in
  let unused := export_total eunused files in
  sum_if (fun k => negb (is_empty k)) (get_setmap files) = used /\
  sum_if is_empty (get_setmap files) = unused /\
  sm_total (get_setmap files) = used + unused /\
  tsm (files_tree false files) = get_setmap files.
Proof. exact reports_agree. Qed.
Print Assumptions C06_reports_agree.

(* non-vacuity: two directories, a file used by two platforms with an unused block,
   a header used by one platform, an unused header, and a symlink to a member *)
Definition C06_ex_node (ls : list Z) (ps : pset) : node := {| nlines := ls; nnum := Z.of_nat (List.length ls); nplat := ps |}.
Definition C06_example : list file :=
  [ {| fpath := ["src"; "a.c"]; flink := false; ftarget_in := false; fid := "h1";
       fnodes := [C06_ex_node [1; 2] ["cpu"; "gpu"]; C06_ex_node [4] ["cpu"]; C06_ex_node [6; 7] []; C06_ex_node [9] ["cpu"; "gpu"]] |};
    {| fpath := ["src"; "util"; "b.h"]; flink := false; ftarget_in := false; fid := "h2";
       fnodes := [C06_ex_node [1] ["gpu"]] |};
    {| fpath := ["inc"; "u.h"]; flink := false; ftarget_in := false; fid := "h3";
       fnodes := [C06_ex_node [1; 2; 3] []] |};
    {| fpath := ["l.c"]; flink := true; ftarget_in := true; fid := "h1";
       fnodes := [C06_ex_node [1; 2] ["cpu"]] |} ]%string.
Example C06_nonvacuous_hyps : wf_paths C06_example /\ Forall file_ok C06_example /\ links_ok C06_example /\
  names_in ["cpu"; "gpu"]%string C06_example /\ (forall f n, In f C06_example -> In n (fnodes f) -> 0 < nnum n).
Proof.
  split; [|split; [|split; [|split]]].
  - split; [|split].
    + cbn. repeat constructor; cbn; intuition discriminate.
    + intros f g Hf Hg. cbn in Hf, Hg. intuition (subst; reflexivity).
    + intros f Hf. cbn in Hf. intuition (subst; discriminate).
  - repeat constructor; cbn; intuition discriminate.
  - intros f Hf Hl. cbn in Hf. intuition (subst; cbn in Hl; try discriminate; reflexivity).
  - intros f n p Hf Hn Hp. cbn in Hf. intuition (subst; cbn in Hn; intuition (subst; cbn in Hp |- *;
      repeat match type of Hp with context [String.eqb p ?s] => destruct (String.eqb p s) eqn:?; try reflexivity end; try discriminate; rewrite ?orb_true_r; try reflexivity)).
  - intros f n Hf Hn. cbn in Hf. intuition (subst; cbn in Hn; intuition (subst; reflexivity)).
Qed.
Example C06_nonvacuous :
  (get_setmap C06_example,
   match summary (get_setmap C06_example) with Ok (rows, t) => (map scount rows, t) | Err _ => ([], -1) end,
   map (fun e => (eused e, eunused e)) (export C06_example),
   map (fun r => (rdepth r, rname r, rtotal r, rused r)) (snd (report_files ["cpu"; "gpu"]%string true (Some 1%nat) C06_example)))
  = ([(["cpu"; "gpu"], 3); (["cpu"], 1); ([], 5); (["gpu"], 1)]%string,
     ([5; 1; 1; 3], 10),
     [([1; 2; 4; 9], [6; 7]); ([1], []); ([], [1; 2; 3]); ([1; 2], [])],
     [(0%nat, ""%string, 7, 5); (1%nat, "src"%string, 7, 5); (1%nat, "l.c"%string, 2, 2)]).
Proof. vm_compute. reflexivity. Qed.
