(* C06 - Every counted line lands in exactly one platform set; all reports agree.
   Statements only. *)
From Coq Require Import ZArith String Bool Arith Permutation Sorted List.
From CBI Require Import Lib.Data Lib.Res Model.C06 Spec.C06 Proofs.C06.
Import ListNotations.
Local Open Scope Z_scope.

(* The values of the setmap add up to the SLOC of the code base: the sum of
   num_lines over all nodes of all files that are not symlinks to another
   member.  More generally every figure read off the setmap (sum of the values
   whose key satisfies P) is that sum restricted to the nodes whose platform set
   satisfies P.  No hypothesis. *)
Theorem C06_setmap_total : forall files,
  sm_total (get_setmap files) = sloc files /\
  forall P, sum_if P (get_setmap files) = spec_sum P files.
Proof. intros files. split; [apply setmap_total | intros P; apply setmap_sums]. Qed.
Print Assumptions C06_setmap_total.

(* The summary table.  get_setmap is exactly the table of buckets (one entry per
   platform set that occurs on a node of a counted file, in first-occurrence
   order, holding the sum of num_lines over those nodes).  Whenever
   report.summary prints (it raises only if the table is non-empty and all counts
   are 0), its rows are a permutation of the buckets, no platform set occurs
   twice, each row carries count = its bucket and the denominator = SLOC (the
   printed percentage is count / denominator * 100), rows are ordered by
   non-decreasing size of the platform set, and "Total SLOC" is the SLOC. *)
Theorem C06_rows : forall files,
  get_setmap files = spec_buckets files /\
  (forall rows total, summary (get_setmap files) = Ok (rows, total) ->
     total = sloc files /\
     Permutation (map (fun r => (skey r, scount r)) rows) (spec_buckets files) /\
     Forall (fun r => scount r = bucket (skey r) files /\ stotal r = sloc files) rows /\
     NoDup (map skey rows) /\
     StronglySorted (fun a b => (List.length (skey a) <= List.length (skey b))%nat) rows) /\
  (forall e, summary (get_setmap files) = Err e -> sloc files = 0 /\ spec_keys files <> []).
Proof.
  intros files. split; [apply get_setmap_exact|]. split; [intros rows total; apply summary_rows | intros e; apply summary_err].
Qed.
Print Assumptions C06_rows.

(* Partition.  For a well-formed analysis result (every node counts exactly the
   lines it lists, no physical line of a file is listed twice: C05's business)
   every figure of the setmap is the NUMBER OF LINES of the counted files whose
   node's platform set satisfies P, and every listed line of every file lies in
   the line set of exactly one platform set. *)
Theorem C06_partition : forall files, Forall file_ok files ->
  (forall P, sum_if P (get_setmap files) = line_count P files) /\
  (forall f, In f files -> forall l, In l (all_lines f) ->
     exists k, In l (lines_with (key_eqb k) f) /\ forall k', In l (lines_with (key_eqb k') f) -> k' = k).
Proof. exact partition. Qed.
Print Assumptions C06_partition.

(* Coverage export.  One entry per code-base file, in order, with the file's path
   and content id; used_lines / unused_lines are exactly the listed lines whose
   owning node has a non-empty / empty platform set, together they are a
   duplicate-free rearrangement of the file's counted lines, and their lengths are
   the used / unused figures of the file's own setmap (the file's row in the tree). *)
Theorem C06_export_partition : forall files, Forall file_ok files ->
  map epath (export files) = map fpath files /\ map eid (export files) = map fid files /\
  Forall2 (fun f e =>
     eused e = spec_used f /\ eunused e = spec_unused f /\
     Permutation (eused e ++ eunused e) (all_lines f) /\ NoDup (eused e ++ eunused e) /\
     (forall l, In l (eused e) <-> In l (all_lines f) /\ line_used f l = true) /\
     (forall l, In l (eunused e) <-> In l (all_lines f) /\ line_used f l = false) /\
     Z.of_nat (List.length (eused e)) = sum_if (fun k => negb (is_empty k)) (file_setmap f) /\
     Z.of_nat (List.length (eunused e)) = sum_if is_empty (file_setmap f)) files (export files).
Proof. exact export_partition. Qed.
Print Assumptions C06_export_partition.
