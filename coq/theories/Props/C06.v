(* C06 - Every counted line lands in exactly one platform set; all reports agree.
   Statements only. *)
From Coq Require Import ZArith String Bool Arith List.
From CBI Require Import Lib.Data Lib.Res Model.C06 Spec.C06 Proofs.C06.
Import ListNotations.
Local Open Scope Z_scope.

(* The values of the setmap add up to the SLOC of the code base: the sum of
   num_lines over all nodes of all files that are not symlinks to another
   member.  No hypothesis. *)
Theorem C06_setmap_total : forall files, sm_total (get_setmap files) = sloc files.
Proof. exact setmap_total. Qed.
Print Assumptions C06_setmap_total.
