(* Types of the option table that tools/gen/c11_tables.py regenerates from
   config.ArgumentParser.parse_args (shared by Gen/C11_tables.v and Model/C11.v). *)
From Coq Require Import String List.

(* nargs=None (exactly one value) | nargs="?" (optional value) *)
Inductive nargs := N1 | NOpt.
(* the destination list of an [append] action (DPath = include_paths, DSys = system_include_paths);
   every other destination is unobserved *)
Inductive dest := DDef | DPath | DSys | DFile | DIgn.
Record optdef := { ostrs : list string; onargs : nargs; odest : dest }.
