(* Small list lemmas missing from the 8.16 standard library. *)
From Coq Require Import List Arith Lia Permutation.
Import ListNotations.

Lemma filter_length_le {A} (f : A -> bool) (l : list A) : length (filter f l) <= length l.
Proof. induction l as [|x l IH]; cbn; [lia|]. destruct (f x); cbn; lia. Qed.

Lemma NoDup_snoc {A} (l : list A) (x : A) : NoDup l -> ~ In x l -> NoDup (l ++ [x]).
Proof.
  intros Hl Hx. apply Permutation_NoDup with (l := x :: l); [apply Permutation_cons_append|].
  constructor; assumption.
Qed.
