(* C09 — shared vocabulary of the gitignore matchers (definitions only).

   A pattern line is read into an abstract pattern [apat]: negation flag,
   directory-only flag, and a list of segments (the text between slashes), each
   either the double star or a glob over one path component.  Paths are lists
   of components, so "a star never crosses a slash" is built into the types;
   the split of pattern and path text at '/' is done here, in Gallina.

   [parse git raw]: git = false reads the line the way pathspec 0.12.1
   (GitWildMatchPattern.pattern_to_regex) does, git = true the way git's dir.c /
   wildmatch.c do.  The two readings differ inside the supported grammar only on
   a backslash that precedes a slash.  Lines outside the supported grammar
   (PUnsup) are not modelled: see docs/C09.md for the list. *)
From Coq Require Import Bool Arith Ascii String List.
From CBI Require Import Lib.Data.
Import ListNotations.
Local Open Scope char_scope.

Definition chars := list ascii.

Inductive gitem := GLit (c : ascii) | GQ | GStar | GClass (neg : bool) (rs : list (ascii * ascii)).
Inductive seg := SDStar | SGlob (g : list gitem).
(* p_tail: the line ended in "/**/" after its last proper segment (or is "/**/").
   pathspec compiles such a line exactly like the same line without the "**/"
   (p_segs holds those segments; its regex lets the inner group match nothing), whereas
   for git the directory matched must lie strictly BELOW (segments ++ double star). *)
Record apat := { p_neg : bool; p_dir : bool; p_tail : bool; p_segs : list seg }.

(* ---------- matching one component ---------- *)
Definition in_range (c : ascii) (r : ascii * ascii) : bool :=
  (Nat.leb (nat_of_ascii (fst r)) (nat_of_ascii c)) && (Nat.leb (nat_of_ascii c) (nat_of_ascii (snd r))).
Definition item_ok (it : gitem) (c : ascii) : bool :=
  match it with
  | GLit x => Ascii.eqb x c
  | GQ => true
  | GStar => false
  | GClass n rs => xorb n (existsb (in_range c) rs)
  end.

Fixpoint gmatch (g : list gitem) (s : chars) : bool :=
  match g with
  | [] => match s with [] => true | _ => false end
  | GStar :: r =>
      (fix star (s : chars) : bool :=
         gmatch r s || match s with [] => false | _ :: t => star t end) s
  | it :: r => match s with [] => false | c :: t => item_ok it c && gmatch r t end
  end.

(* ---------- matching a whole path (list of components) ----------
   leading / inner double star: zero or more components;
   trailing double star: one or more components ("everything inside"). *)
Fixpoint bm (ss : list seg) (cs : list chars) : bool :=
  match ss with
  | [] => match cs with [] => true | _ => false end
  | SGlob g :: r => match cs with [] => false | c :: t => gmatch g c && bm r t end
  | SDStar :: r =>
      match r with
      | [] => match cs with [] => false | _ => true end
      | _ => (fix skip (cs : list chars) : bool :=
                bm r cs || match cs with [] => false | _ :: t => skip t end) cs
      end
  end.

(* non-empty proper prefixes of a path = its ancestor directories, top-down *)
Fixpoint sprefixes {A} (cs : list A) : list (list A) :=
  match cs with
  | [] => []
  | c :: t => match t with [] => [] | _ => [c] :: map (cons c) (sprefixes t) end
  end.

(* ---------- reading a pattern line ---------- *)
Inductive presult := PNone | PPat (p : apat) | PErr | PUnsup.

Definition is_space (c : ascii) : bool := Ascii.eqb c " ".
Definition is_bslash (c : ascii) : bool := Ascii.eqb c "\".
Definition is_slash (c : ascii) : bool := Ascii.eqb c "/".
Definition is_star (c : ascii) : bool := Ascii.eqb c "*".
Definition printable (c : ascii) : bool := (Nat.leb (32) (nat_of_ascii c)) && (Nat.leb (nat_of_ascii c) (126)).
Definition is_alnum (c : ascii) : bool :=
  let n := nat_of_ascii c in
  ((Nat.leb (48) (n)) && (Nat.leb (n) (57))) || ((Nat.leb (65) (n)) && (Nat.leb (n) (90))) || ((Nat.leb (97) (n)) && (Nat.leb (n) (122))).
Definition class_plain (c : ascii) : bool := is_alnum c || Ascii.eqb c "." || Ascii.eqb c "_".

Fixpoint split_on (sep : ascii -> bool) (s : chars) : list chars :=
  match s with
  | [] => [[]]
  | c :: t => match split_on sep t with
              | [] => [[]]    (* unreachable *)
              | h :: r => if sep c then [] :: h :: r else (c :: h) :: r
              end
  end.

Fixpoint drop_while {A} (f : A -> bool) (l : list A) : list A :=
  match l with [] => [] | x :: t => if f x then drop_while f t else l end.
Fixpoint count_while {A} (f : A -> bool) (l : list A) : nat :=
  match l with [] => 0 | x :: t => if f x then S (count_while f t) else 0 end.

(* trailing blanks: removed; one blank escaped by exactly one backslash is kept;
   anything else involving a backslash before trailing blanks is outside the grammar *)
Definition strip_trailing (s : chars) : option chars :=
  let r := rev s in
  let k := count_while is_space r in
  let t := drop_while is_space r in
  let b := count_while is_bslash t in
  match k with
  | 0 => Some s
  | _ => match b with
         | 0 => Some (rev t)
         | 1 => match k with 1 => Some s | _ => None end
         | _ => None
         end
  end.

(* the inside of a bracket expression, after the optional negation sign:
   plain characters and ascending ranges of alphanumerics up to the closing bracket *)
Fixpoint lex_class (s : chars) (acc : list (ascii * ascii)) : option (list (ascii * ascii) * chars) :=
  match s with
  | [] => None
  | c :: t =>
      if Ascii.eqb c "]" then match acc with [] => None | _ => Some (rev acc, t) end
      else if class_plain c then
        match t with
        | d :: t' =>
            if Ascii.eqb d "-" then
              match t' with
              | e :: t'' => if is_alnum c && is_alnum e && (Nat.leb (nat_of_ascii c) (nat_of_ascii e))
                            then lex_class t'' ((c, e) :: acc) else None
              | [] => None
              end
            else lex_class t ((c, c) :: acc)
        | [] => None
        end
      else None
  end.

Inductive lexres := LOk (g : list gitem) | LDangling (g : list gitem) | LUnsup.
Definition lcons (i : gitem) (r : lexres) : lexres :=
  match r with LOk g => LOk (i :: g) | LDangling g => LDangling (i :: g) | LUnsup => LUnsup end.

(* one segment; LDangling = the segment ends in an escaping backslash *)
Fixpoint lex_seg (fuel : nat) (s : chars) : lexres :=
  match fuel with
  | 0 => LUnsup
  | S f =>
    match s with
    | [] => LOk []
    | c :: t =>
        if is_bslash c then
          match t with
          | [] => LDangling []
          | d :: t' => lcons (GLit d) (lex_seg f t')
          end
        else if is_star c then lcons GStar (lex_seg f t)
        else if Ascii.eqb c "?" then lcons GQ (lex_seg f t)
        else if Ascii.eqb c "[" then
          let '(n, body) := match t with
                            | d :: t' => if Ascii.eqb d "!" || Ascii.eqb d "^" then (true, t') else (false, t)
                            | [] => (false, t)
                            end in
          match lex_class body [] with
          | Some (rs, rest) => lcons (GClass n rs) (lex_seg f rest)
          | None => LUnsup
          end
        else lcons (GLit c) (lex_seg f t)
    end
  end.

(* two adjacent stars inside a longer segment ("a**", "q**b") are outside the grammar:
   git strips a literal prefix of the pattern before calling wildmatch, after which
   such stars can become a leading double star ("a**/x" then matches "ab/c/x") *)
Fixpoint has_2stars (s : chars) : bool :=
  match s with
  | c :: t => match t with
              | d :: _ => (is_star c && is_star d) || has_2stars t
              | [] => false
              end
  | [] => false
  end.

Inductive segres := SOk (s : seg) | SEscSlash (s : seg) | SUnsup.
Definition read_seg (s : chars) : segres :=
  if forallb is_star s && (Nat.leb (2) (length s)) then
    match length s with 2 => SOk SDStar | _ => SUnsup end
  else if has_2stars s then SUnsup
  else match lex_seg (S (length s)) s with
       | LOk g => SOk (SGlob g)
       | LDangling g => SEscSlash (SGlob g)
       | LUnsup => SUnsup
       end.

Definition is_dstar (s : seg) : bool := match s with SDStar => true | _ => false end.

Fixpoint dedupe (l : list seg) : list seg :=
  match l with
  | [] => []
  | a :: r => match r with
              | b :: _ => if is_dstar a && is_dstar b then dedupe r else a :: dedupe r
              | [] => [a]
              end
  end.

(* a segment no component matches (one character from the empty class) *)
Definition never_seg : seg := SGlob [GClass false []].

(* all segments of the body *)
Fixpoint read_segs (git : bool) (l : list chars) : option (option (list seg)) :=
  (* None = unsupported; Some None = pathspec raises; Some (Some ss) = fine *)
  match l with
  | [] => Some (Some [])
  | s :: r =>
      match read_seg s with
      | SUnsup => None
      | SOk x => match read_segs git r with
                 | None => None
                 | Some None => Some None
                 | Some (Some ss) => Some (Some (x :: ss))
                 end
      | SEscSlash x =>
          match r with
          | [] => (* the line ends in a dangling backslash: pathspec raises; for git the
                     pattern is valid and can never match (wildmatch meets the end of the pattern) *)
                  if git then Some (Some [never_seg]) else Some None
          | _ => match read_segs git r with
                 | None => None
                 | Some None => Some None
                 | Some (Some ss) => if git then Some (Some (x :: ss)) else Some None
                 end
          end
      end
  end.

(* the pattern proper, after blanks, comment test and negation sign are dealt with *)
Definition parse_body (git : bool) (ng : bool) (s2 : chars) : presult :=
  let raw_segs := split_on is_slash s2 in
  let anchored := match raw_segs with [] :: _ :: _ => true | _ => false end in
  let body1 := if anchored then tl raw_segs else raw_segs in
  let isdir := match rev body1 with [] :: _ :: _ => true | _ => false end in
  let body := if isdir then removelast body1 else body1 in
  match body with
  | [] => PUnsup
  | _ =>
    match read_segs git body with
    | None => PUnsup
    | Some None => PErr
    | Some (Some ss0) =>
      let ss1 := dedupe ss0 in
      let single := negb anchored && match ss1 with [_] => true | _ => false end in
      let ss := if single && negb (match ss1 with [SDStar] => true | _ => false end)
                then SDStar :: ss1 else ss1 in
      let last_dstar := match rev ss1 with SDStar :: _ => true | _ => false end in
      if isdir && last_dstar && negb (single && match ss1 with [SDStar] => true | _ => false end)
      then PPat {| p_neg := ng; p_dir := true; p_tail := true; p_segs := removelast ss1 |}
      else PPat {| p_neg := ng; p_dir := isdir; p_tail := false; p_segs := ss |}
    end
  end.

Definition parse (git : bool) (raw : string) : presult :=
  let s := list_of_string raw in
  if negb (forallb printable s) then PUnsup else
  match s with
  | c :: _ => if is_space c then PUnsup else
    match strip_trailing s with
    | None => PUnsup
    | Some s1 =>
      match s1 with
      | [] => PNone
      | c1 :: rest1 =>
        if Ascii.eqb c1 "#" then PNone
        else if is_slash c1 && match rest1 with [] => true | _ => false end then PNone
        else if Ascii.eqb c1 "!"
             then match rest1 with
                  | [] => if git then PNone else PErr     (* "!" alone: pathspec raises, git matches nothing *)
                  | _ => parse_body git true rest1
                  end
             else match s1 with [] => PUnsup | _ => parse_body git false s1 end
      end
    end
  | [] => PNone
  end.
