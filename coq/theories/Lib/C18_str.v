(* C18 — string helpers used by the warning-message model: substring test,
   decimal rendering, right-aligned padding, path rendering.  Definitions only. *)
From Coq Require Import Bool Arith Ascii String List.
From Coq Require DecimalString.
Import ListNotations.
Local Open Scope string_scope.

Definition nl : string := String (ascii_of_nat 10) EmptyString.
Definition dq : string := String (ascii_of_nat 34) EmptyString.
Definition sq : string := "'".

(* str(n) for a non-negative int *)
Definition dec (n : nat) : string := DecimalString.NilZero.string_of_uint (Nat.to_uint n).

(* Python's  sub in s  *)
Fixpoint contains (sub s : string) : bool :=
  if String.prefix sub s then true
  else match s with EmptyString => false | String _ r => contains sub r end.

(* re.search(".", s): some character other than a newline *)
Fixpoint has_dot (s : string) : bool :=
  match s with
  | EmptyString => false
  | String c r => if Ascii.eqb c (ascii_of_nat 10) then has_dot r else true
  end.

(* f"{s:>5}" *)
Fixpoint spaces (n : nat) : string := match n with 0 => "" | S k => " " ++ spaces k end.
Definition pad5 (s : string) : string := spaces (5 - String.length s) ++ s.

Definition join (sep : string) (l : list string) : string := String.concat sep l.

(* absolute path from its components / a relative spelling *)
Definition rpath (p : list string) : string := "/" ++ join "/" p.
Definition rname (p : list string) : string := join "/" p.

(* the part after the last '/' (os.path.basename) *)
Fixpoint basename_aux (acc : string) (s : string) : string :=
  match s with
  | EmptyString => acc
  | String c r => if Ascii.eqb c "/"%char then basename_aux r r else basename_aux acc r
  end.
Definition basename (s : string) : string := basename_aux s s.

(* os.path.splitext(name)[1] for one component: from the last dot, provided a character other
   than a dot precedes it (leading dots do not start an extension) *)
Fixpoint last_dot_tail (s : string) : option string :=
  match s with
  | EmptyString => None
  | String c r =>
      match last_dot_tail r with
      | Some t => Some t
      | None => if Ascii.eqb c "."%char then Some s else None
      end
  end.
Fixpoint strip_dots (s : string) : string :=
  match s with
  | String c r => if Ascii.eqb c "."%char then strip_dots r else s
  | EmptyString => EmptyString
  end.
Definition suffix (name : string) : string :=
  match last_dot_tail (strip_dots name) with Some t => t | None => "" end.

Definition mem_str (x : string) (l : list string) : bool := existsb (String.eqb x) l.
