(* Universal case/answer format shared by the extracted driver and by
   [Eval vm_compute] cross-checks.  All parsing and printing is done here, in
   Gallina, so that the OCaml driver only moves lines between stdin/stdout.

   Syntax of one line:   d ::= INT | WORD | #HEX | ( d* )
     INT   = -?[0-9]+                      -> DInt
     WORD  = [A-Za-z_][A-Za-z0-9_.]*       -> DStr (the word itself)
     #HEX  = '#' followed by hex pairs     -> DStr (decoded bytes)
*)
From Coq Require Import List ZArith String Ascii Bool.
From Coq Require DecimalString.
Import ListNotations.
Local Open Scope string_scope.
Local Open Scope Z_scope.

Inductive data := DInt (z : Z) | DStr (s : string) | DList (l : list data).

(* ---------- characters ---------- *)
Definition zascii (c : ascii) : Z := Z.of_N (N_of_ascii c).
Definition ascii_of_z (z : Z) : ascii := ascii_of_N (Z.to_N z).
Definition is_digit (c : ascii) : bool := let n := zascii c in (48 <=? n) && (n <=? 57).
Definition is_alpha (c : ascii) : bool :=
  let n := zascii c in ((65 <=? n) && (n <=? 90)) || ((97 <=? n) && (n <=? 122)) || (n =? 95).
Definition is_wordch (c : ascii) : bool := is_alpha c || is_digit c || (zascii c =? 46).
Definition hexval (c : ascii) : option Z :=
  let n := zascii c in
  if (48 <=? n) && (n <=? 57) then Some (n - 48)
  else if (97 <=? n) && (n <=? 102) then Some (n - 87)
  else if (65 <=? n) && (n <=? 70) then Some (n - 55)
  else None.
Definition hexdigit (z : Z) : ascii := if z <? 10 then ascii_of_z (48 + z) else ascii_of_z (87 + z).

Fixpoint string_of_list (l : list ascii) : string :=
  match l with [] => EmptyString | c :: r => String c (string_of_list r) end.
Fixpoint list_of_string (s : string) : list ascii :=
  match s with EmptyString => [] | String c r => c :: list_of_string r end.

(* ---------- parsing ---------- *)
Fixpoint dec_digits (acc : Z) (l : list ascii) : option Z :=
  match l with
  | [] => Some acc
  | c :: r => if is_digit c then dec_digits (acc * 10 + (zascii c - 48)) r else None
  end.
Fixpoint hex_bytes (l : list ascii) : option (list ascii) :=
  match l with
  | [] => Some []
  | a :: b :: r =>
      match hexval a, hexval b, hex_bytes r with
      | Some x, Some y, Some t => Some (ascii_of_z (x * 16 + y) :: t)
      | _, _, _ => None
      end
  | _ => None
  end.

Definition atom (tok : list ascii) : option data :=
  match tok with
  | [] => None
  | c :: r =>
      if zascii c =? 35 (* # *) then
        match hex_bytes r with Some b => Some (DStr (string_of_list b)) | None => None end
      else if zascii c =? 45 (* - *) then
        match r with [] => None | _ => match dec_digits 0 r with Some z => Some (DInt (- z)) | None => None end end
      else if is_digit c then
        match dec_digits 0 tok with Some z => Some (DInt z) | None => None end
      else if is_alpha c && forallb is_wordch r then Some (DStr (string_of_list tok))
      else None
  end.

Record pst := { cur : list ascii; top : list data; stk : list (list data); bad : bool }.

Definition flush (p : pst) : pst :=
  match cur p with
  | [] => p
  | t => match atom (rev t) with
         | Some d => {| cur := []; top := d :: top p; stk := stk p; bad := bad p |}
         | None => {| cur := []; top := top p; stk := stk p; bad := true |}
         end
  end.

Definition pstep (p : pst) (c : ascii) : pst :=
  let n := zascii c in
  if (n =? 32) || (n =? 9) || (n =? 10) || (n =? 13) then flush p
  else if n =? 40 then
    let p := flush p in {| cur := []; top := []; stk := top p :: stk p; bad := bad p |}
  else if n =? 41 then
    let p := flush p in
    match stk p with
    | f :: r => {| cur := []; top := DList (rev (top p)) :: f; stk := r; bad := bad p |}
    | [] => {| cur := []; top := top p; stk := []; bad := true |}
    end
  else {| cur := c :: cur p; top := top p; stk := stk p; bad := bad p |}.

Definition parse (s : string) : option data :=
  let p := flush (fold_left pstep (list_of_string s) {| cur := []; top := []; stk := []; bad := false |}) in
  if bad p then None else
  match stk p, top p with
  | [], [d] => Some d
  | _, _ => None
  end.

(* ---------- printing ---------- *)
Definition print_Z (z : Z) : string := DecimalString.NilZero.string_of_int (Z.to_int z).

Fixpoint hex_of (l : list ascii) : list ascii :=
  match l with
  | [] => []
  | c :: r => let n := zascii c in hexdigit (n / 16) :: hexdigit (n mod 16) :: hex_of r
  end.

Definition print_str (s : string) : string :=
  let l := list_of_string s in
  match l with
  | c :: r => if is_alpha c && forallb is_wordch r then s else String "#" (string_of_list (hex_of l))
  | [] => "#"
  end.

Fixpoint print (d : data) : string :=
  match d with
  | DInt z => print_Z z
  | DStr s => print_str s
  | DList l =>
      "(" ++ (fix go (l : list data) : string :=
                match l with
                | [] => ")"
                | [x] => print x ++ ")"
                | x :: r => print x ++ " " ++ go r
                end) l
  end.

(* ---------- decoding / encoding helpers ---------- *)
Definition as_int (d : data) : option Z := match d with DInt z => Some z | _ => None end.
Definition as_nat (d : data) : option nat := match d with DInt z => if 0 <=? z then Some (Z.to_nat z) else None | _ => None end.
Definition as_str (d : data) : option string := match d with DStr s => Some s | _ => None end.
Definition as_list (d : data) : option (list data) := match d with DList l => Some l | _ => None end.
Definition as_bool (d : data) : option bool :=
  match d with DInt 0 => Some false | DInt 1 => Some true | _ => None end.

Fixpoint opt_map {A B} (f : A -> option B) (l : list A) : option (list B) :=
  match l with
  | [] => Some []
  | x :: r => match f x, opt_map f r with Some y, Some t => Some (y :: t) | _, _ => None end
  end.
Definition as_list_of {B} (f : data -> option B) (d : data) : option (list B) :=
  match d with DList l => opt_map f l | _ => None end.
Definition as_pair {A B} (f : data -> option A) (g : data -> option B) (d : data) : option (A * B) :=
  match d with
  | DList [a; b] => match f a, g b with Some x, Some y => Some (x, y) | _, _ => None end
  | _ => None
  end.

Definition of_bool (b : bool) : data := DInt (if b then 1 else 0).
Definition of_nat (n : nat) : data := DInt (Z.of_nat n).
Definition of_list {A} (f : A -> data) (l : list A) : data := DList (map f l).
Definition of_pair {A B} (f : A -> data) (g : B -> data) (p : A * B) : data := DList [f (fst p); g (snd p)].
Definition of_option {A} (f : A -> data) (o : option A) : data :=
  match o with Some x => DList [DStr "Some"; f x] | None => DStr "None" end.
Definition bad_case : data := DStr "BADCASE".
