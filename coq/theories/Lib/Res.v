(* Error-as-value result type used by every model. *)
From Coq Require Import String.
Inductive res (A : Type) := Ok (a : A) | Err (e : string).
Arguments Ok {A}. Arguments Err {A}.
Definition bind {A B} (r : res A) (f : A -> res B) : res B :=
  match r with Ok a => f a | Err e => Err e end.
Definition rmap {A B} (f : A -> B) (r : res A) : res B :=
  match r with Ok a => Ok (f a) | Err e => Err e end.
