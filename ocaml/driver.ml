(* Moves lines between stdin/stdout and the extracted [run_line]; nothing else. *)
let explode s = List.init (String.length s) (String.get s)
let implode l = let b = Buffer.create 64 in List.iter (Buffer.add_char b) l; Buffer.contents b
let () =
  try
    while true do
      let line = input_line stdin in
      print_string (implode (Cbimodel.run_line (explode line)));
      print_newline ()
    done
  with End_of_file -> ()
